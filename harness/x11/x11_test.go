// X11 (extension check) — github.com/dapr/kit/grpccodes: HTTPStatusFromCode and CodeFromHTTPStatus.
//
//   - spec/ext/GrpcCodes/GrpcCodesContract.tla: the two mappings as DOCUMENTED by the sources the Go file
//     cites (google/rpc/code.proto "HTTP Mapping:" lines; grpc/doc/http-grpc-status-mapping.md), typed in
//     from the documents and not from the code, the laws that hold under every reading of them, and the
//     monitor that judges one observed call per case; GrpcCodesModel.tla has TLC enumerate the case table
//     (every code 0..20 + outliers, every status -5..700 + outliers; thorough: 0..2000, -10000..10000), checks
//     that conforming implementations are accepted, that the answers of the code as found are rejected on
//     exactly the deviating cases, that defect variants are rejected, and writes cases.ndjson.
//   - every case is replayed on the REAL functions in re-exec'ed child processes with a watchdog (a panic
//     is caught and recorded; a crash or hang is attributed to the case in flight).
//   - every real call is recorded (reset(id, fam, fed) ; obs ; end) and judged by TLC (TraceGrpcCodes.tla):
//     once with the verdict reading (an answer supported by one of the cited documents is accepted) and
//     once by the letter of the cited reverse table (Strict): the additional deviations of the second run
//     are listed as DOC-DEVIATION lines / evidence only.
package x11

import (
	"bufio"
	"bytes"
	"encoding/json"
	"fmt"
	"os"
	"os/exec"
	"reflect"
	"regexp"
	"runtime"
	"sort"
	"strconv"
	"strings"
	"sync"
	"testing"
	"time"

	"github.com/dapr/kit/grpccodes"
	rpccode "google.golang.org/genproto/googleapis/rpc/code"
	"google.golang.org/grpc/codes"

	"verifharness/internal/ev"
	"verifharness/internal/tlc"
	"verifharness/internal/tv"
)

const (
	specDir     = "ext/GrpcCodes"
	childEnv    = "VERIF_X11_CHILD"
	lawCodes    = 20  // GrpcCodesContract!LawCodes
	lawStatuses = 700 // GrpcCodesContract!LawStatuses
)

type M = map[string]any

type Case struct {
	ID  int    `json:"id"`
	Fam string `json:"fam"`
	N   int    `json:"n"`
	Law string `json:"law,omitempty"`
}

type Obs struct {
	Cls string `json:"cls"`
	Val any    `json:"val"`
	Msg string `json:"msg"`
}

func TestMain(m *testing.M) {
	if f := os.Getenv(childEnv); f != "" {
		childMain(f)
		os.Exit(0)
	}
	os.Exit(m.Run())
}

// perform makes the real call(s) of one case.
func perform(c Case) (o Obs) {
	defer func() {
		if r := recover(); r != nil {
			o = Obs{Cls: "panic", Val: "none", Msg: fmt.Sprint(r)}
		}
	}()
	switch c.Fam {
	case "fwd":
		code := codes.Code(uint32(c.N))
		return Obs{Cls: "ok", Val: M{"http": grpccodes.HTTPStatusFromCode(code), "name": code.String()}}
	case "rev":
		code := grpccodes.CodeFromHTTPStatus(c.N)
		return Obs{Cls: "ok", Val: M{"code": int(code), "name": code.String()}}
	case "doc":
		d := vendoredDoc()
		if d == nil {
			return Obs{Cls: "skip", Val: "none", Msg: "the generated copy of code.proto was not found"}
		}
		ent, ok := d[c.N]
		if !ok {
			return Obs{Cls: "crash", Val: "none", Msg: "no enum value with this number in the vendored code.proto"}
		}
		return Obs{Cls: "ok", Val: M{"proto": ent.proto, "http": ent.http}}
	case "law":
		f, r := make([]int, lawCodes+1), make([]int, lawStatuses+1)
		f2, r2 := make([]int, lawCodes+1), make([]int, lawStatuses+1)
		for n := 0; n <= lawCodes; n++ {
			f[n] = grpccodes.HTTPStatusFromCode(codes.Code(uint32(n)))
		}
		for h := 0; h <= lawStatuses; h++ {
			r[h] = int(grpccodes.CodeFromHTTPStatus(h))
		}
		// the same calls again, in the opposite order and interleaved
		for h := lawStatuses; h >= 0; h-- {
			r2[h] = int(grpccodes.CodeFromHTTPStatus(h))
			if h <= lawCodes {
				f2[h] = grpccodes.HTTPStatusFromCode(codes.Code(uint32(h)))
			}
		}
		return Obs{Cls: "ok", Val: M{"f": f, "r": r, "f2": f2, "r2": r2}}
	}
	return Obs{Cls: "crash", Val: "none", Msg: "harness: unknown family " + c.Fam}
}

type docEnt struct {
	proto string
	http  int
}

var (
	docOnce sync.Once
	docTab  map[int]docEnt
)

// vendoredDoc reads the "HTTP Mapping:" comments and enum numbers of the generated Go copy of
// google/rpc/code.proto (module google.golang.org/genproto/googleapis/rpc, a dependency of dapr/kit).
func vendoredDoc() map[int]docEnt {
	docOnce.Do(func() {
		fn := runtime.FuncForPC(reflect.ValueOf(rpccode.Code.String).Pointer())
		if fn == nil {
			return
		}
		file, _ := fn.FileLine(fn.Entry())
		raw, err := os.ReadFile(file)
		if err != nil {
			return
		}
		re := regexp.MustCompile(`(?s)// HTTP Mapping: (\d+) [^\n]*\n\s*Code_([A-Z_]+) Code = (\d+)`)
		tab := map[int]docEnt{}
		for _, m := range re.FindAllStringSubmatch(string(raw), -1) {
			h, _ := strconv.Atoi(m[1])
			n, _ := strconv.Atoi(m[3])
			tab[n] = docEnt{proto: m[2], http: h}
		}
		if len(tab) > 0 {
			docTab = tab
		}
	})
	return docTab
}

// childMain performs the cases of the file (one JSON case per line) and writes, per case, a "begin" line
// and a result line to fd 3.
func childMain(file string) {
	out := os.NewFile(3, "results")
	raw, err := os.ReadFile(file)
	if err != nil || out == nil {
		os.Exit(4)
	}
	w := bufio.NewWriter(out)
	for _, l := range bytes.Split(raw, []byte("\n")) {
		if len(bytes.TrimSpace(l)) == 0 {
			continue
		}
		var c Case
		if err := json.Unmarshal(l, &c); err != nil {
			fmt.Fprintf(w, "{\"bad\":%q}\n", err.Error())
			w.Flush()
			continue
		}
		fmt.Fprintf(w, "{\"begin\":%d}\n", c.ID)
		w.Flush()
		if os.Getenv("VERIF_X11_SELFTEST_HANG") == strconv.Itoa(c.ID) {
			select {}
		}
		if os.Getenv("VERIF_X11_SELFTEST_CRASH") == strconv.Itoa(c.ID) {
			os.Exit(7)
		}
		b, err := json.Marshal(M{"id": c.ID, "obs": perform(c)})
		if err != nil {
			b, _ = json.Marshal(M{"id": c.ID, "obs": Obs{Cls: "crash", Val: "none", Msg: "harness: cannot encode the outcome: " + err.Error()}})
		}
		w.Write(b)
		w.WriteByte('\n')
		w.Flush()
	}
}

type rawCase struct {
	c   Case
	raw []byte
}

// runChunk performs the cases in child processes; a child that dies or stalls is replaced, the case in
// flight gets the outcome crash / hang.
func runChunk(cases []rawCase, stall time.Duration, extraEnv []string) (map[int]Obs, error) {
	res := map[int]Obs{}
	rest := cases
	for len(rest) > 0 {
		f, err := os.CreateTemp("", "x11-cases-*.ndjson")
		if err != nil {
			return res, err
		}
		for _, rc := range rest {
			f.Write(rc.raw)
			f.Write([]byte("\n"))
		}
		f.Close()
		rd, wr, err := os.Pipe()
		if err != nil {
			os.Remove(f.Name())
			return res, err
		}
		cmd := exec.Command(os.Args[0], "-test.run=^$")
		cmd.Env = append(append(os.Environ(), childEnv+"="+f.Name()), extraEnv...)
		cmd.ExtraFiles = []*os.File{wr}
		var stderr bytes.Buffer
		cmd.Stdout, cmd.Stderr = &stderr, &stderr
		if err := cmd.Start(); err != nil {
			rd.Close()
			wr.Close()
			os.Remove(f.Name())
			return res, err
		}
		wr.Close()
		lines := make(chan []byte, 256)
		go func() {
			sc := bufio.NewScanner(rd)
			sc.Buffer(make([]byte, 1<<20), 1<<24)
			for sc.Scan() {
				lines <- append([]byte{}, sc.Bytes()...)
			}
			close(lines)
		}()
		inFlight, done := -1, 0
		hang := false
	loop:
		for {
			select {
			case l, ok := <-lines:
				if !ok {
					break loop
				}
				var m struct {
					Begin *int `json:"begin"`
					ID    *int `json:"id"`
					Obs   *Obs `json:"obs"`
				}
				if json.Unmarshal(l, &m) != nil {
					continue
				}
				if m.Begin != nil {
					inFlight = *m.Begin
				}
				if m.ID != nil && m.Obs != nil {
					res[*m.ID] = *m.Obs
					inFlight = -1
					done++
				}
			case <-time.After(stall):
				hang = true
				_ = cmd.Process.Kill()
				break loop
			}
		}
		_ = cmd.Process.Kill()
		_ = cmd.Wait()
		rd.Close()
		os.Remove(f.Name())
		if done == len(rest) {
			break
		}
		if inFlight < 0 {
			if done == 0 {
				return res, fmt.Errorf("the child process made no progress: %s", tailStr(stderr.String()))
			}
			rest = rest[done:]
			continue
		}
		cls, msg := "crash", "the child process died: "+tailStr(stderr.String())
		if hang {
			cls, msg = "hang", fmt.Sprintf("no result within %s", stall)
		}
		res[inFlight] = Obs{Cls: cls, Val: "none", Msg: msg}
		idx := -1
		for i, rc := range rest {
			if rc.c.ID == inFlight {
				idx = i
			}
		}
		if idx < 0 {
			return res, fmt.Errorf("the child reported an unknown case %d", inFlight)
		}
		rest = rest[idx+1:]
	}
	return res, nil
}

func tailStr(s string) string {
	s = strings.TrimSpace(s)
	if len(s) > 400 {
		s = s[len(s)-400:]
	}
	return s
}

func slug(s string) string {
	var sb strings.Builder
	for _, r := range s {
		switch {
		case r >= 'a' && r <= 'z' || r >= 'A' && r <= 'Z' || r >= '0' && r <= '9':
			sb.WriteRune(r)
		case r == ' ' || r == '-' || r == ':' || r == '/' || r == '.' || r == ',' || r == '(' || r == ')' || r == '=':
			sb.WriteByte('-')
		}
	}
	out := sb.String()
	for strings.Contains(out, "--") {
		out = strings.ReplaceAll(out, "--", "-")
	}
	out = strings.Trim(out, "-")
	if len(out) > 110 {
		out = out[:110]
	}
	return out
}

func loadCases(raw []byte) ([]rawCase, error) {
	var out []rawCase
	for _, l := range bytes.Split(raw, []byte("\n")) {
		if len(bytes.TrimSpace(l)) == 0 {
			continue
		}
		var c Case
		if err := json.Unmarshal(l, &c); err != nil {
			return nil, fmt.Errorf("%v: %s", err, l)
		}
		out = append(out, rawCase{c: c, raw: append([]byte{}, l...)})
	}
	sort.Slice(out, func(i, j int) bool { return out[i].c.ID < out[j].c.ID })
	return out, nil
}

func fed(c Case) []any {
	if c.Fam == "law" {
		return []any{c.Law}
	}
	return []any{c.N}
}

func record(b *tv.Batch, c Case, o Obs) {
	b.Start(tv.M{"id": c.ID, "fam": c.Fam, "fed": fed(c)})
	val := o.Val
	if val == nil {
		val = "none"
	}
	b.Ev("obs", tv.M{"cls": o.Cls, "val": val, "msg": o.Msg})
	b.Ev("end", nil)
}

func reproducer(c Case) string {
	switch c.Fam {
	case "fwd":
		return fmt.Sprintf("grpccodes.HTTPStatusFromCode(codes.Code(%d)) // %s", c.N, codes.Code(uint32(c.N)))
	case "rev":
		return fmt.Sprintf("grpccodes.CodeFromHTTPStatus(%d)", c.N)
	}
	if c.Fam == "doc" {
		return fmt.Sprintf("the HTTP Mapping comment of enum value %d in google.golang.org/genproto/googleapis/rpc/code/code.pb.go", c.N)
	}
	return fmt.Sprintf("law %q over HTTPStatusFromCode(0..%d) and CodeFromHTTPStatus(0..%d)", c.Law, lawCodes, lawStatuses)
}

func observed(c Case, o Obs) string {
	if m, ok := o.Val.(map[string]any); ok {
		switch c.Fam {
		case "fwd":
			return fmt.Sprintf("= %v", m["http"])
		case "rev":
			return fmt.Sprintf("= %v (%v)", m["name"], m["code"])
		}
	}
	return o.Cls + " " + o.Msg
}

func TestCheck(t *testing.T) {
	e := ev.New("X11", "model_checking")
	defer func() {
		if e.Write() > 0 {
			t.Fail()
		}
	}()
	tier := ev.Pick("small", "big")
	if rp := os.Getenv("VERIF_REPLAY"); rp != "" {
		replay(e, rp)
		return
	}
	e.Assume("the expected answers are those of the documents the Go file cites: google/rpc/code.proto (HTTP Mapping lines, enum numbers) for HTTPStatusFromCode, grpc/doc/http-grpc-status-mapping.md for CodeFromHTTPStatus; an undefined code is handled like Unknown (the cited grpc-gateway function, the package test)",
		"verdict reading for CodeFromHTTPStatus(h): the code of the cited table, or a code whose code.proto status is h, or OK for a 2xx status; deviations from the letter of the cited table that this reading accepts are listed (cited_table_deviations, DOC-DEVIATION lines) and do not change the verdict",
		"codes.Code is a uint32: codes above 2147483647 are not enumerated (TLC integers have 32 bits)")

	// ---- 1. the case table: model check + export; the battery of variants in parallel
	noTE := []string{"-noGenerateSpecTE"}
	type variant struct {
		cfg, inv string
		wantOK   bool
	}
	battery := []variant{
		{"MC_cited_strict.cfg", "", true}, {"MC_cited_lenient.cfg", "", true},
		{"MC_inverse_strict_exact.cfg", "", true}, {"MC_as_found_exact.cfg", "", true}, {"MC_as_found_laws.cfg", "", true},
		{"MC_defect_as_found.cfg", "NotBad", false}, {"MC_defect_swap_auth.cfg", "NotBad", false},
		{"MC_defect_undefined_ok.cfg", "NotBad", false}, {"MC_defect_redirect_ok.cfg", "NotBad", false},
		{"MC_defect_created_status.cfg", "NotBad", false}, {"MC_defect_law_redirect_ok.cfg", "LawsNotBad", false},
		{"MC_defect_law_created_status.cfg", "LawsNotBad", false}, {"MC_defect_law_undefined_ok.cfg", "LawsNotBad", false},
	}
	var wg sync.WaitGroup
	var mc tlc.Result
	bres := make([]tlc.Result, len(battery))
	wg.Add(1)
	go func() {
		defer wg.Done()
		mc = tlc.Run(tlc.Opts{Dir: specDir, Module: "GrpcCodesModel", Config: "MC_" + tier + ".cfg", Workers: 4, Timeout: 5 * time.Minute, Args: noTE, Keep: []string{"cases.ndjson"}})
	}()
	sem := make(chan struct{}, 5)
	for i := range battery {
		wg.Add(1)
		go func() {
			defer wg.Done()
			sem <- struct{}{}
			defer func() { <-sem }()
			bres[i] = tlc.Run(tlc.Opts{Dir: specDir, Module: "GrpcCodesModel", Config: battery[i].cfg, Workers: 2, Timeout: 5 * time.Minute, Args: noTE, HeapMB: 1024})
		}()
	}
	wg.Wait()
	fmt.Printf("MC GrpcCodesModel: ok=%v generated=%d distinct=%d wall=%s %s\n", mc.OK, mc.Generated, mc.Distinct, mc.Wall.Round(time.Millisecond), mc.What)
	e.Set("states", mc.Distinct)
	e.Set("transitions", mc.Generated)
	e.Set("checker_cmd", mc.Cmd)
	if !mc.OK {
		e.Inconclusive("model check of GrpcCodesModel did not pass: " + mc.What + "\n" + mc.Tail(3000))
		return
	}
	variants := M{}
	var vstates int64
	for i, v := range battery {
		r := bres[i]
		good := r.OK
		if !v.wantOK {
			good = r.Violation && strings.Contains(r.What, "Invariant "+v.inv+" is violated")
		}
		variants[strings.TrimSuffix(v.cfg, ".cfg")] = good
		vstates += r.Distinct
		if !good {
			e.Inconclusive(fmt.Sprintf("model variant %s: expected %s, got ok=%v violation=%v %s", v.cfg, map[bool]string{true: "no error", false: "a violation of " + v.inv}[v.wantOK], r.OK, r.Violation, r.What))
		}
	}
	e.Set("model_variants_as_expected", variants)
	e.Set("model_variant_states", vstates)
	cases, err := loadCases(mc.Kept["cases.ndjson"])
	if err != nil || len(cases) == 0 {
		e.Inconclusive(fmt.Sprintf("cannot read the case table written by TLC: %v (%d)", err, len(cases)))
		return
	}
	e.Set("cases_enumerated_by_tlc", int64(len(cases)))
	perFam := map[string]int64{}
	for _, rc := range cases {
		perFam[rc.c.Fam]++
	}
	e.Set("cases_per_family", perFam)

	// ---- 2. replay on the real functions, in child processes
	t0 := time.Now()
	workers := 4
	chunks := make([][]rawCase, workers)
	for i, rc := range cases {
		chunks[i%workers] = append(chunks[i%workers], rc)
	}
	results := make([]map[int]Obs, workers)
	errs := make([]error, workers)
	for w := range chunks {
		wg.Add(1)
		go func() {
			defer wg.Done()
			results[w], errs[w] = runChunk(chunks[w], 20*time.Second, nil)
		}()
	}
	wg.Wait()
	all := map[int]Obs{}
	for w := range results {
		if errs[w] != nil {
			e.Inconclusive("child process: " + errs[w].Error())
			return
		}
		for id, o := range results[w] {
			all[id] = o
		}
	}
	b := &tv.Batch{}
	var order []Case
	classes := map[string]int64{}
	for _, rc := range cases {
		o, ok := all[rc.c.ID]
		if !ok {
			e.Inconclusive(fmt.Sprintf("no outcome for case %d", rc.c.ID))
			return
		}
		record(b, rc.c, o)
		order = append(order, rc.c)
		classes[rc.c.Fam+"/"+o.Cls]++
		// non-trivial: a defined code, a status some cited document maps or a 2xx status, a law
		switch {
		case rc.c.Fam == "fwd" && rc.c.N <= 16, rc.c.Fam == "law", rc.c.Fam == "doc" && o.Cls == "ok":
			e.Nontrivial(strconv.Itoa(rc.c.ID))
		case rc.c.Fam == "rev":
			if m, ok := o.Val.(map[string]any); ok && fmt.Sprint(m["code"]) != "2" {
				e.Nontrivial(strconv.Itoa(rc.c.ID))
			}
		}
	}
	fmt.Printf("performed %d cases on the real functions in %s (%d child workers); outcome classes %v\n", len(order), time.Since(t0).Round(time.Millisecond), workers, classes)
	e.Set("outcome_classes", classes)
	e.Set("evaluations", int64(b.Len()))
	e.Set("rule", "case = one call of a real function (fwd: HTTPStatusFromCode for every code "+ev.Pick("0..20", "0..2000")+" and 57, 100, 255, 256, 65536, 65552, 2^31-1; "+
		"rev: CodeFromHTTPStatus for every integer "+ev.Pick("-5..700", "-10000..10000")+" and -200, -404, -(2^31-1), 1000, 1200, 65736, 65936, 66036, 2^31-1) or one law evaluated by TLC on the observed tables "+
		"(HTTPStatusFromCode over 0..20, CodeFromHTTPStatus over 0..700, each read twice in opposite orders: total, success-forward, success-reverse, compose-code, compose-status, undefined-code, pure); "+
		"or (doc) one row of the spec's code.proto table compared with the HTTP Mapping comment and enum number of the generated copy of code.proto in the module cache; "+
		"all enumerated by TLC (GrpcCodesContract!CaseSeq) and replayed; non-trivial = a defined code, a status whose observed code is not Unknown, a law; distinct by case number")
	for _, i := range []int{0, 1, 16, 18, len(order) / 2, len(order) - 300, len(order) - 9, len(order) - 7} {
		if i >= 0 && i < len(order) {
			tr := b.TraceStrings(i)
			if order[i].Fam == "law" {
				tr = []string{tr[0], "(observed tables omitted)", tr[2]}
			}
			e.Sample(tv.M{"case": reproducer(order[i]), "trace": tr})
		}
	}

	// ---- 3. TLC judges the recorded calls: the verdict run, the by-the-letter run, the binding self-test
	var rej, rejStrict []tv.Reject
	var res, resStrict tlc.Result
	var st string
	var stUnmodRejected []int
	wg.Add(3)
	go func() {
		defer wg.Done()
		rej, res = tv.ValidateChunked(tlc.Opts{Dir: specDir, Module: "TraceGrpcCodes", Config: "TraceGrpcCodes_" + tier + ".cfg", Workers: 4, Timeout: 10 * time.Minute}, b)
	}()
	go func() {
		defer wg.Done()
		rejStrict, resStrict = tv.ValidateChunked(tlc.Opts{Dir: specDir, Module: "TraceGrpcCodes", Config: "TraceGrpcCodes_" + tier + "_strict.cfg", Workers: 4, Timeout: 10 * time.Minute}, b)
	}()
	go func() { defer wg.Done(); st, stUnmodRejected = selfTest(e, cases, tier) }()
	wg.Wait()
	fmt.Printf("TLC trace validation: ok=%v violation=%v rejects=%d distinct=%d wall=%s %s\n", res.OK, res.Violation, len(rej), res.Distinct, res.Wall.Round(time.Millisecond), res.What)
	fmt.Printf("TLC trace validation by the letter of the cited table: ok=%v rejects=%d wall=%s %s\n", resStrict.OK, len(rejStrict), resStrict.Wall.Round(time.Millisecond), resStrict.What)
	if st != "" {
		e.Inconclusive("binding self-test failed: " + st)
	}
	mainRejected := map[int]bool{}
	for _, r := range rej {
		mainRejected[order[r.Trace].ID] = true
	}
	for _, id := range stUnmodRejected {
		if !mainRejected[id] {
			e.Inconclusive(fmt.Sprintf("binding self-test: the unmodified record of case %d was rejected", id))
		}
	}
	if !res.OK && !res.Violation {
		e.Inconclusive("trace validation did not run: " + res.What + "\n" + res.Tail(2000))
		return
	}
	if res.Violation && len(rej) == 0 {
		e.Inconclusive("TLC reported a violation that could not be parsed:\n" + res.Tail(1500))
		return
	}
	e.Set("traces_validated_against_impl", int64(b.Len()))
	sort.SliceStable(rej, func(i, j int) bool { return order[rej[i].Trace].ID < order[rej[j].Trace].ID })
	perKey := map[string]int64{}
	for _, r := range rej {
		c := order[r.Trace]
		if strings.HasPrefix(r.Why, "harness:") {
			e.Inconclusive("the harness recorded an impossible trace: " + r.Why + " " + strings.Join(b.TraceStrings(r.Trace), " "))
			continue
		}
		key := c.Fam + ":" + slug(r.Why)
		perKey[key]++
		tr := b.TraceStrings(r.Trace)
		if c.Fam == "law" && len(strings.Join(tr, "")) > 3000 {
			tr = []string{tr[0], "(observed tables: see the replay)", tr[len(tr)-1]}
		}
		e.Violation(key, r.Why+" ["+reproducer(c)+" "+observed(c, all[c.ID])+"]", tv.M{"case": c, "reproducer": reproducer(c), "observed": all[c.ID], "trace": tr})
	}
	e.Set("rejected_cases_per_key", perKey)

	// the additional deviations from the letter of the cited reverse table: information only
	if !resStrict.OK && !resStrict.Violation {
		e.Inconclusive("the by-the-letter trace validation did not run: " + resStrict.What)
		return
	}
	devs := map[string][]int{}
	for _, r := range rejStrict {
		c := order[r.Trace]
		if mainRejected[c.ID] || strings.HasPrefix(r.Why, "harness:") {
			continue
		}
		devs[r.Why] = append(devs[r.Why], c.N)
	}
	var whys []string
	for w := range devs {
		whys = append(whys, w)
	}
	sort.Strings(whys)
	var devList []any
	for _, w := range whys {
		sort.Ints(devs[w])
		span := strings.Trim(fmt.Sprint(devs[w]), "[]")
		if len(devs[w]) > 6 {
			span = fmt.Sprintf("%d..%d (%d of them)", devs[w][0], devs[w][len(devs[w])-1], len(devs[w]))
		}
		fmt.Printf("DOC-DEVIATION property=X11 %s [status %s] - accepted by the verdict (the inverse of the code.proto mapping / a success status)\n", w, span)
		devList = append(devList, tv.M{"what": w, "statuses": span})
	}
	if devList == nil {
		devList = []any{}
	}
	e.Set("cited_table_deviations", devList)
}

// selfTest: unmodified records are accepted, rewritten ones rejected; a hanging and a crashing child are
// detected and attributed to the case in flight.
func selfTest(e *ev.Evidence, cases []rawCase, tier string) (string, []int) {
	var fwdC, revC, lawC, law2C *rawCase
	for i := range cases {
		c := &cases[i]
		switch {
		case c.c.Fam == "fwd" && c.c.N == 5: // NotFound
			fwdC = c
		case c.c.Fam == "rev" && c.c.N == 503:
			revC = c
		case c.c.Fam == "law" && c.c.Law == "success-reverse":
			lawC = c
		case c.c.Fam == "law" && c.c.Law == "pure":
			law2C = c
		}
	}
	if fwdC == nil || revC == nil || lawC == nil || law2C == nil {
		return "no suitable cases", nil
	}
	sel := []rawCase{*fwdC, *revC, *lawC, *law2C}
	res, err := runChunk(sel, 20*time.Second, nil)
	if err != nil {
		return err.Error(), nil
	}
	b := &tv.Batch{}
	for _, rc := range sel {
		record(b, rc.c, res[rc.c.ID])
	}
	// rewritten records (4..8)
	record(b, fwdC.c, Obs{Cls: "ok", Val: M{"http": 410, "name": "NotFound"}}) // another 4xx status
	record(b, revC.c, Obs{Cls: "ok", Val: M{"code": 2, "name": "Unknown"}})    // the default instead of Unavailable
	record(b, revC.c, Obs{Cls: "ok", Val: M{"code": 17, "name": "Code(17)"}})  // an undefined code
	tamper := func(o Obs, tab string, idx, v int) Obs {
		m, _ := o.Val.(map[string]any)
		m2 := M{}
		for k, x := range m {
			m2[k] = x
		}
		if arr, ok := m[tab].([]any); ok {
			a2 := append([]any{}, arr...)
			a2[idx] = v
			m2[tab] = a2
		}
		return Obs{Cls: "ok", Val: m2}
	}
	record(b, lawC.c, tamper(res[lawC.c.ID], "r", 304, 0))    // 304 Not Modified -> OK
	record(b, law2C.c, tamper(res[law2C.c.ID], "f2", 3, 422)) // the second reading differs
	// a record whose `fed` does not belong to the case (9)
	b.Start(tv.M{"id": fwdC.c.ID, "fam": "fwd", "fed": []any{6}})
	b.Ev("obs", tv.M{"cls": "ok", "val": M{"http": 409, "name": "AlreadyExists"}, "msg": ""})
	b.Ev("end", nil)
	// a record without a result (10)
	b.Start(tv.M{"id": revC.c.ID, "fam": "rev", "fed": fed(revC.c)})
	b.Ev("end", nil)
	rej, tres := tv.Validate(tlc.Opts{Dir: specDir, Module: "TraceGrpcCodes", Config: "TraceGrpcCodes_" + tier + ".cfg", Workers: 2, Timeout: 5 * time.Minute, HeapMB: 1024}, b)
	got := map[int]bool{}
	for _, r := range rej {
		got[r.Trace] = true
	}
	hres, herr := runChunk(sel, 3*time.Second, []string{"VERIF_X11_SELFTEST_HANG=" + strconv.Itoa(revC.c.ID)})
	cres, cerr := runChunk(sel, 20*time.Second, []string{"VERIF_X11_SELFTEST_CRASH=" + strconv.Itoa(lawC.c.ID)})
	hangOK := herr == nil && hres[revC.c.ID].Cls == "hang" && hres[fwdC.c.ID].Cls == "ok" && hres[law2C.c.ID].Cls == "ok"
	crashOK := cerr == nil && cres[lawC.c.ID].Cls == "crash" && cres[law2C.c.ID].Cls == "ok"
	var unmodRejected []int
	for i, rc := range sel {
		if got[i] {
			unmodRejected = append(unmodRejected, rc.c.ID)
		}
	}
	e.Set("binding_selftest", tv.M{"unmodified_accepted": len(unmodRejected) == 0, "other_4xx_status_rejected": got[4], "default_instead_of_unavailable_rejected": got[5],
		"undefined_code_rejected": got[6], "redirect_mapped_to_ok_rejected": got[7], "impure_rejected": got[8], "foreign_input_rejected": got[9], "missing_result_rejected": got[10],
		"hanging_child_attributed": hangOK, "crashing_child_attributed": crashOK})
	if (tres.OK || tres.Violation) && got[4] && got[5] && got[6] && got[7] && got[8] && got[9] && got[10] && hangOK && crashOK {
		return "", unmodRejected
	}
	return fmt.Sprintf("rejects=%v hang=%v(%v) crash=%v(%v) %s", rej, hangOK, herr, crashOK, cerr, tres.What), unmodRejected
}

// replay re-performs the case stored in a replay file (./check X11 --replay <file>) and has TLC judge it.
func replay(e *ev.Evidence, path string) {
	raw, err := os.ReadFile(path)
	if err != nil {
		e.Inconclusive("cannot read the replay file: " + err.Error())
		return
	}
	var f struct {
		Tier   string `json:"tier"`
		Replay struct {
			Case *Case `json:"case"`
		} `json:"replay"`
	}
	if err := json.Unmarshal(raw, &f); err != nil || f.Replay.Case == nil {
		e.Inconclusive("cannot parse the replay file")
		return
	}
	tier := "small"
	if f.Tier == "thorough" {
		tier = "big"
	}
	c := *f.Replay.Case
	j, _ := json.Marshal(c)
	res, err := runChunk([]rawCase{{c: c, raw: j}}, 20*time.Second, nil)
	if err != nil {
		e.Inconclusive("child process: " + err.Error())
		return
	}
	b := &tv.Batch{}
	record(b, c, res[c.ID])
	rej, tres := tv.Validate(tlc.Opts{Dir: specDir, Module: "TraceGrpcCodes", Config: "TraceGrpcCodes_" + tier + ".cfg", Workers: 2, Timeout: 5 * time.Minute}, b)
	fmt.Printf("replay: %s %s\n  TLC ok=%v rejects=%d %s\n", reproducer(c), observed(c, res[c.ID]), tres.OK, len(rej), tres.What)
	if !tres.OK && !tres.Violation {
		e.Inconclusive("trace validation did not run: " + tres.What)
		return
	}
	e.Set("evaluations", int64(1))
	e.Set("traces_validated_against_impl", int64(1))
	for _, r := range rej {
		e.Violation(c.Fam+":"+slug(r.Why), r.Why, tv.M{"replayed": path, "case": c, "observed": res[c.ID], "trace": b.TraceStrings(0)})
	}
}
